#!/usr/bin/env python3
"""Regenerates /verif/MANIFEST.json from the table below and validates it against the schema."""
import json, os, sys
ROOT = os.path.dirname(os.path.dirname(os.path.abspath(__file__)))

# id -> (technique, level text, level note, design section)
CHECKS = {
 "C01": ("runtime monitors on every public entry point: panic capture (debug assertions + overflow checks on), counting allocator heap bound, CPU-limited worker processes; sanitizer layers: libFuzzer+ASan, Miri, stock release profile (thorough)",
         "112 entry points (84 public parse functions + 28 derived Parse impls) are each fed every kind of valid encoding, corruption, truncation, mutation, pattern and dense 1 MiB input, with adversarial extra parameters; each call is followed by Debug/pretty-Debug/Display formatting. A panic, an arithmetic overflow, an out-of-bounds index, a debug assertion, a heap peak above 64 KiB + 1024 B per input byte, or a worker that dies/hangs is a violation. Defragmenter op soups and streams past the 10 MiB cap run under the same monitors.",
         "Only executions produced are judged; hang detection is a CPU-time limit per worker (never wall time); which Ok/Err is returned is other properties' business.",
         "3/C01"),
 "C05": ("runtime monitor: all 65536 extension types through three dispatchers, 16 tag parsers x 65536 types, reference-encoded contents and lists, predicted corruptions",
         "Complete sweep of the type space through the generic, client-hello and server-hello dispatchers against independent IANA tables and per-type content generators; list parsers on generated lists; each tag parser on every wire type; empty-by-definition types with data, overlong outer/inner lengths; contents at the maximum size and maximum element count their length prefixes allow; random (type, length) header soup; lists longer than 64 KiB. The type domain is swept completely; contents are sampled.",
         "Recognition sets of the client/server dispatchers are read off behaviour (typed variant or verbatim Unknown); error kinds unjudged.",
         "3/C05"),
 "C06": ("runtime monitor: value/remainder/aliasing oracle by address over 33 self-delimiting parsers x {valid, every single length-field corruption, bit flips, mutations} x suffix kinds incl. > 64 KiB and > 4 GiB; independent declared-length calculators",
         "For every accepted input the parse is repeated with a suffix appended: value must be equal, the remainder must be exactly the suffix slice of the same buffer, every reachable slice must alias the consumed prefix; whenever the independent calculator says the declared length is already present the outcome class must not change (this is what catches a nested length reading into the next structure). Defragmenter results are checked for provenance through the hook.",
         "Addresses of empty slices are not judged; PskExchangeModes is an owned Vec by design.",
         "3/C06"),
 "C07": ("runtime monitor: executable sequential model of the defragmenter run in lock-step with the real object over generated operation histories; hooked buffer/type compared after every call; second pass with a warped clock (LD_PRELOAD fault injection) in the workers",
         "Histories: k-way splits (incl. all 2/3-way cut positions of short payloads, empty fragments), foreign-type injections, nocopy in every state, reuse after completion in lock-step with a fresh parser, op soups, and streams across the 10 MiB cap. After every operation answer, defrag_in_progress(), buffer contents (hook), state-unchanged-on-refusal and slice provenance must match the model; the split scenarios also carry the property-level oracle (all but the last Incomplete, last == unsplit parse).",
         "The model's one-shot parser is the real parse_tls_record_with_header (decided by C03): differential between two paths of the real code plus a 40-line bookkeeping model.",
         "3/C07"),
 "C09": ("runtime monitor: serializer output compared byte-exact with an independent reference encoder, parsed back and re-serialized; unsupported values must yield NotYetImplemented",
         "Every serializable kind over generated values, all 65536 ClientHello versions, session-id lengths 0..32, boundary cipher/compression/extension sizes, the three ClientKeyExchange forms, records of 1..n messages, values obtained by parsing, and the three serializable extensions; byte-exact comparison fixes every emitted length field.",
         "Values outside wire limits are outside the quantifier and not generated; documented normal form applied to expectations.",
         "3/C09"),
 "C10": ("runtime monitor: DTLS framing oracle (13-byte header) over all lengths/epochs/sequence bits, reference-encoded handshake headers and bodies, fragments, datagrams",
         "All 65536 declared lengths and epochs, every single bit of the epoch+sequence word, every prefix of generated records, (length, offset, fragment length) boundary triples, all 256 handshake types as fragments, cookies of every length, the six supported bodies, CCS/alert records and multi-record datagrams, all compared with expected crate values from an independent encoder.",
         "Unfragmented unsupported types and fragment_length > length are unjudged.",
         "3/C10"),
 "C11": ("runtime monitor: complete sweep of each enumerated field's integer domain inside an otherwise valid reference encoding",
         "44 enumerated fields (TLS and DTLS twins) are each driven through all 256 / 65536 / 256x256 values; the parse must succeed and equal the expected value, so the code point is preserved and nothing else changes. Finite domain, swept completely on every run.",
         "Structure-selecting fields are excluded by the statement.",
         "3/C11"),
 "C12": ("runtime monitor: registry compared cell by cell with the txt source (independent reader) and a golden IANA snapshot; all 65536 ids x 4 lookup routes; names and ~366k perturbed names; derived sizes; name-token implications",
         "Every run re-reads scripts/tls-ciphersuites.txt with an independent parser and the committed golden snapshot and compares all 352x10 cells, sweeps every id through the four lookup routes, looks up every name and every perturbation class, and checks derived sizes and the algorithm tokens of the IANA names. Finite domain, swept completely.",
         "golden/ciphersuites.golden is today's table (additions allowed, alterations flagged); ChaCha20 key bits / AEGIS MAC column are recorded as unjudged (name carries no token).",
         "3/C12"),
 "C13": ("runtime monitor: reference encoder round trip for DH / EC / ECDH / ECPoint / both DigitallySigned forms with trailing bytes, every strict prefix, all curve types, all named groups and algorithm pairs; parse_content_and_signature under both flag values",
         "Complete sweeps over the 65536 named groups, the 254 unsupported curve types and the 65536 algorithm pairs; generated field lengths incl. 0/1/255/256/65535; remainder checked by address; the negotiation flag is exercised on inputs where the two signature forms decode differently.",
         "Error kinds unjudged.",
         "3/C13"),
 "C14": ("runtime monitor: reference-encoded SCT lists with predicted outcomes for entry/list length corruptions and truncations",
         "Lists of 0..40 SCTs over all versions, algorithm pairs and timestamp bits; single-entry parser on two-entry inputs; an entry whose length exceeds the list contributes nothing (and nor do the following ones); a list longer than the input yields no value; truncation at every byte of short lists.",
         "Slack bytes inside an over-long entry are unjudged.",
         "3/C14"),
 "C15": ("runtime monitor: accessor == field (by address) on parsed TLS/DTLS and constructed hellos; rand_time/rand_bytes on boundary words; cipher accessors for all 65536 ids",
         "Trait accessors, rand_time/rand_bytes, cipher_suites/get_ciphers/get_cipher and the constructors are observed on thousands of parsed and constructed values and on every cipher id.",
         "Constructed randoms shorter than 4 bytes unjudged.",
         "3/C15"),
 "C16": ("runtime monitor: differential between the multi-record parsers and an explicit loop over the single-record parser on concatenations with six tail kinds and mutations",
         "The many-parsers must return exactly the loop's records and a remainder at the loop's stopping point (by address), and fail iff the loop yields nothing; tls_parser is compared with parse_tls_plaintext including error kind and error position.",
         "Single-record parsers are the reference (judged by C02/C03/C10).",
         "3/C16"),
 "C18": ("observing the toolchain and the built binaries per configuration: feature-matrix builds, differential digests of 63 entry points over a generated corpus in each configuration (and with hooks on), the same digests under an LD_PRELOAD time-warp shim and a scrambled environment (ambient-input fault injection), Send/Sync and forbid(unsafe_code) build probes, 16-thread sharing at run time (Miri data-race detector in thorough)",
         "Each configuration of the property's quantifier is built and, where buildable, run on the same corpus; digests of (outcome, Debug text, remainder) must be identical line by line. serialize-without-std must be refused with the crate's own diagnostic. The two static clauses are decided by build probes (compiler as monitor) and reported as such.",
         "Build probes are static observations; unsafe expanded from external macros is outside the lint.",
         "3/C18"),
 "C02": ("runtime monitor: framing oracle computed from (type, version, declared length, available bytes) over a complete type x length sweep, all versions and every prefix length",
         "Raw and encrypted record parsers are executed on all 256 types x 65536 declared lengths (complete), all 65536 versions, 51 M random header triples with comparison-prone byte values (field coincidences), every prefix of boundary/random records, records followed by another record of every type and by 64-192 KiB of trailing data; the plaintext parser on generated valid records, every prefix of them, all 256 types and the 'complete record whose content wants more bytes' family. Exhaustive for the (type, length) domain of the opaque parsers; sampled for payload contents.",
         "Needed while fewer than 5 bytes are available and addresses of empty slices are not judged; plaintext message contents are C03.",
         "3/C02"),
 "C03": ("runtime monitor: reference-encoded message lists with predictable tails, one-step vs two-step differential, all alerts / all content types swept",
         "Records are built by an independent reference encoder from generated message lists (all 65536 alerts, CCS lists, the 17 handshake variants, application data of every length class, heartbeat with padding) and must decode, by both routes, to exactly the expected crate values; malformed-first-message, empty and unknown-type records must yield no value; the two-step remainder must be the undecoded tail by address. Also: records with the maximum number of messages, and every upward single-bit flip of the last message's 24-bit length.",
         "Reference encoder (harness/src/refenc.rs, written from the RFCs) is the trusted side; error kinds unjudged.",
         "3/C03"),
 "C04": ("runtime monitor: reference encoder round trip for 17 handshake variants + must-reject catalogue R1-R11 + structural oracle on all single length-field corruptions",
         "Generated abstract values of every variant are encoded by the reference encoder and must parse (message parser and every public body parser) to the expected crate value with the exact remainder; the catalogue of structurally invalid encodings (A.2) must never yield a value, with complete sweeps where the domain is finite (session-id length 33..255, 65531 ServerHello versions, 240 unknown types, all ClientHello versions); accepted corrupted encodings (five classic corruptions + every single-bit flip of every length field, random header soup) must stay inside their 24-bit length; body parsers with a length parameter are run on longer and shorter buffers; lists with very many elements; every variant at the start of a buffer longer than 4 GiB.",
         "Reference encoder is the trusted side; listed unjudged behaviours (optional trailing parts, CertificateRequest two-form ambiguity) are recorded, not judged.",
         "3/C04"),
 "C17": ("runtime monitor: complete sweep of every registry newtype's integer domain against independently typed IANA tables",
         "All 207 named constants are compared with IANA/RFC values typed independently; for every value of each of the 18 newtypes' domains (256 or 65536) Display/Debug text, integer conversions, SignatureScheme split and key_bits() are executed and judged. The domain is finite and swept completely on every run.",
         "IANA tables in harness/src/iana.rs are the trusted side (one row marked uncertain is unjudged on disagreement); x25519 key_bits recorded, not judged.",
         "3/C17"),
 "C08": ("runtime monitor: complete state x direction x message-kind sweep of the real transition function against a reference relation, plus lock-step random walks and documented flows",
         "Every cell of the 25x2x{18 handshake kinds, CCS, 65536 alerts, app data, heartbeat} table is executed on the real function on every run and compared with a reference relation written from the property text; content-independence is probed with 64 random payloads per cell. The judged domain is finite and swept completely, so the table part is exhaustive; walks/flows add history-level observations.",
         "Reference relation (DESIGN appendix A.1) is the trusted side; open cells carry allowed sets. ClientHello with Some(empty) session id is outside the generated domain.",
         "3/C08"),
}
STRUCT_PROPS = {"C02", "C03", "C04", "C05", "C06", "C07", "C08", "C09", "C10", "C13", "C14", "C15", "C16"}
SCALE = {"C01": 2, "C06": 4, "C07": 4, "C10": 4, "C13": 6}
PENDING = {}  # id -> reason (properties not claimed)

def main():
    props = [json.loads(l) for l in open(os.path.join(ROOT, "properties.jsonl"))]
    ids = [p["id"] for p in props]
    checks = []
    for pid in ids:
        if pid not in CHECKS:
            continue
        tech, text, note, ref = CHECKS[pid]
        if pid in STRUCT_PROPS:
            tech += "; thorough tier adds a coverage-guided structured workload (libFuzzer + ASan driving the harness's own generators, same native oracles) and scales every randomized family x" + str(SCALE.get(pid, 10))
        elif pid in ("C11", "C12", "C17"):
            tech += "; the sweeps are exhaustive, so both tiers explore the same (complete) domains"
        checks.append({
            "property_id": pid,
            "quick_cmd": f"./check {pid} quick",
            "thorough_cmd": f"./check {pid} thorough",
            "evidence_file": f"/verif/evidence/{pid}.json",
            "replay_cmd_template": "./check replay {path}",
            "engine": "tlsverif",
            "level_claimed": {"category": "exploration", "text": text, "design_ref": f"DESIGN.md section {ref}"},
            "level_note": note,
            "technique": tech,
        })
    na = []
    for pid in ids:
        if pid not in CHECKS:
            na.append({"property_id": pid, "reason": PENDING.get(pid, "check not built yet (work in progress); the technique applies, see DESIGN.md section 3")})
    hooks_commits = [l.strip() for l in open(os.path.join(ROOT, "tools/hook_commits.txt")) if l.strip()]
    m = {
        "version": 1,
        "setup_cmd": "./check build",
        "hooks": {
            "guard": "cfg tls_parser_verif (rustc --cfg flag, off by default)",
            "enable": "RUSTFLAGS=\"--cfg tls_parser_verif\" when building the harness crate /verif/harness, which path-depends on /repo",
            "baseline_off_cmd": "cd /repo && cargo test --workspace --no-fail-fast --offline",
            "source_commits": hooks_commits,
            "add_only": True,
        },
        "engines": [
            {"name": "tlsverif", "path": "/verif/harness", "serves_properties": sorted(CHECKS), "kind_free_text": "Rust harness: generated/exhaustive workloads against the real crate, deterministic oracles (reference encoders, IANA tables, executable models), counting allocator, panic capture, CPU-time watchdog over worker subprocesses"},
        ],
        "checks": checks,
        "not_applicable": na,
        "notes": "Exit codes of every check: 0 held on everything explored (observation floors met), 1 violation (VIOLATION line), 2 inconclusive (harness does not build, floor not met, tool failure). Known findings: /verif/KNOWN_FINDINGS.txt. Seeded-mutation catalogue: /verif/seeded/.",
    }
    out = os.path.join(ROOT, "MANIFEST.json")
    json.dump(m, open(out, "w"), indent=1)
    try:
        import jsonschema
        jsonschema.validate(m, json.load(open("/root/.vp/MANIFEST.schema.json")))
        print("MANIFEST.json valid;", len(checks), "checks,", len(na), "not claimed")
    except ImportError:
        print("jsonschema not available; not validated")

main()
