#!/usr/bin/env python3
"""Regenerates /verif/MANIFEST.json from the table below and validates it against the schema."""
import json, os, sys
ROOT = os.path.dirname(os.path.dirname(os.path.abspath(__file__)))

# id -> (technique, level text, level note, design section)
CHECKS = {
 "C08": ("runtime monitor: complete state x direction x message-kind sweep of the real transition function against a reference relation, plus lock-step random walks and documented flows",
         "Every cell of the 25x2x{18 handshake kinds, CCS, 65536 alerts, app data, heartbeat} table is executed on the real function on every run and compared with a reference relation written from the property text; content-independence is probed with 64 random payloads per cell. The judged domain is finite and swept completely, so the table part is exhaustive; walks/flows add history-level observations.",
         "Reference relation (DESIGN appendix A.1) is the trusted side; open cells carry allowed sets. ClientHello with Some(empty) session id is outside the generated domain.",
         "3/C08"),
}
PENDING = {}  # id -> reason (properties not claimed)

def main():
    props = [json.loads(l) for l in open(os.path.join(ROOT, "properties.jsonl"))]
    ids = [p["id"] for p in props]
    checks = []
    for pid in ids:
        if pid not in CHECKS:
            continue
        tech, text, note, ref = CHECKS[pid]
        checks.append({
            "property_id": pid,
            "quick_cmd": f"./check {pid} quick",
            "thorough_cmd": f"./check {pid} thorough",
            "evidence_file": f"/verif/evidence/{pid}.json",
            "replay_cmd_template": "./check replay {path}",
            "engine": "tlsverif",
            "level_claimed": {"category": "exploration", "text": text, "design_ref": f"DESIGN.md section {ref}"},
            "level_note": note,
            "technique": tech,
        })
    na = []
    for pid in ids:
        if pid not in CHECKS:
            na.append({"property_id": pid, "reason": PENDING.get(pid, "check not built yet (work in progress); the technique applies, see DESIGN.md section 3")})
    hooks_commits = [l.strip() for l in open(os.path.join(ROOT, "tools/hook_commits.txt")) if l.strip()]
    m = {
        "version": 1,
        "setup_cmd": "./check build",
        "hooks": {
            "guard": "cfg tls_parser_verif (rustc --cfg flag, off by default)",
            "enable": "RUSTFLAGS=\"--cfg tls_parser_verif\" when building the harness crate /verif/harness, which path-depends on /repo",
            "baseline_off_cmd": "cd /repo && cargo test --workspace --no-fail-fast --offline",
            "source_commits": hooks_commits,
            "add_only": True,
        },
        "engines": [
            {"name": "tlsverif", "path": "/verif/harness", "serves_properties": sorted(CHECKS), "kind_free_text": "Rust harness: generated/exhaustive workloads against the real crate, deterministic oracles (reference encoders, IANA tables, executable models), counting allocator, panic capture, CPU-time watchdog over worker subprocesses"},
        ],
        "checks": checks,
        "not_applicable": na,
        "notes": "Exit codes of every check: 0 held on everything explored (observation floors met), 1 violation (VIOLATION line), 2 inconclusive (harness does not build, floor not met, tool failure). Known findings: /verif/KNOWN_FINDINGS.txt. Seeded-mutation catalogue: /verif/seeded/.",
    }
    out = os.path.join(ROOT, "MANIFEST.json")
    json.dump(m, open(out, "w"), indent=1)
    try:
        import jsonschema
        jsonschema.validate(m, json.load(open("/root/.vp/MANIFEST.schema.json")))
        print("MANIFEST.json valid;", len(checks), "checks,", len(na), "not claimed")
    except ImportError:
        print("jsonschema not available; not validated")

main()
