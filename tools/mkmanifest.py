#!/usr/bin/env python3
"""Regenerates /verif/MANIFEST.json from the table below and validates it against the schema."""
import json, os, sys
ROOT = os.path.dirname(os.path.dirname(os.path.abspath(__file__)))

# id -> (technique, level text, level note, design section)
CHECKS = {
 "C02": ("runtime monitor: framing oracle computed from (type, version, declared length, available bytes) over a complete type x length sweep, all versions and every prefix length",
         "Raw and encrypted record parsers are executed on all 256 types x 65536 declared lengths (complete), all 65536 versions and every prefix of boundary/random records; the plaintext parser on generated valid records, every prefix of them, all 256 types and the 'complete record whose content wants more bytes' family. Exhaustive for the (type, length) domain of the opaque parsers; sampled for payload contents.",
         "Needed while fewer than 5 bytes are available and addresses of empty slices are not judged; plaintext message contents are C03.",
         "3/C02"),
 "C03": ("runtime monitor: reference-encoded message lists with predictable tails, one-step vs two-step differential, all alerts / all content types swept",
         "Records are built by an independent reference encoder from generated message lists (all 65536 alerts, CCS lists, the 17 handshake variants, application data of every length class, heartbeat with padding) and must decode, by both routes, to exactly the expected crate values; malformed-first-message, empty and unknown-type records must yield no value; the two-step remainder must be the undecoded tail by address.",
         "Reference encoder (harness/src/refenc.rs, written from the RFCs) is the trusted side; error kinds unjudged.",
         "3/C03"),
 "C04": ("runtime monitor: reference encoder round trip for 17 handshake variants + must-reject catalogue R1-R11 + structural oracle on all single length-field corruptions",
         "Generated abstract values of every variant are encoded by the reference encoder and must parse (message parser and every public body parser) to the expected crate value with the exact remainder; the catalogue of structurally invalid encodings (A.2) must never yield a value, with complete sweeps where the domain is finite (session-id length 33..255, 65531 ServerHello versions, 240 unknown types, all ClientHello versions); accepted corrupted encodings must stay inside their 24-bit length.",
         "Reference encoder is the trusted side; listed unjudged behaviours (optional trailing parts, CertificateRequest two-form ambiguity) are recorded, not judged.",
         "3/C04"),
 "C17": ("runtime monitor: complete sweep of every registry newtype's integer domain against independently typed IANA tables",
         "All 207 named constants are compared with IANA/RFC values typed independently; for every value of each of the 18 newtypes' domains (256 or 65536) Display/Debug text, integer conversions, SignatureScheme split and key_bits() are executed and judged. The domain is finite and swept completely on every run.",
         "IANA tables in harness/src/iana.rs are the trusted side (one row marked uncertain is unjudged on disagreement); x25519 key_bits recorded, not judged.",
         "3/C17"),
 "C08": ("runtime monitor: complete state x direction x message-kind sweep of the real transition function against a reference relation, plus lock-step random walks and documented flows",
         "Every cell of the 25x2x{18 handshake kinds, CCS, 65536 alerts, app data, heartbeat} table is executed on the real function on every run and compared with a reference relation written from the property text; content-independence is probed with 64 random payloads per cell. The judged domain is finite and swept completely, so the table part is exhaustive; walks/flows add history-level observations.",
         "Reference relation (DESIGN appendix A.1) is the trusted side; open cells carry allowed sets. ClientHello with Some(empty) session id is outside the generated domain.",
         "3/C08"),
}
PENDING = {}  # id -> reason (properties not claimed)

def main():
    props = [json.loads(l) for l in open(os.path.join(ROOT, "properties.jsonl"))]
    ids = [p["id"] for p in props]
    checks = []
    for pid in ids:
        if pid not in CHECKS:
            continue
        tech, text, note, ref = CHECKS[pid]
        checks.append({
            "property_id": pid,
            "quick_cmd": f"./check {pid} quick",
            "thorough_cmd": f"./check {pid} thorough",
            "evidence_file": f"/verif/evidence/{pid}.json",
            "replay_cmd_template": "./check replay {path}",
            "engine": "tlsverif",
            "level_claimed": {"category": "exploration", "text": text, "design_ref": f"DESIGN.md section {ref}"},
            "level_note": note,
            "technique": tech,
        })
    na = []
    for pid in ids:
        if pid not in CHECKS:
            na.append({"property_id": pid, "reason": PENDING.get(pid, "check not built yet (work in progress); the technique applies, see DESIGN.md section 3")})
    hooks_commits = [l.strip() for l in open(os.path.join(ROOT, "tools/hook_commits.txt")) if l.strip()]
    m = {
        "version": 1,
        "setup_cmd": "./check build",
        "hooks": {
            "guard": "cfg tls_parser_verif (rustc --cfg flag, off by default)",
            "enable": "RUSTFLAGS=\"--cfg tls_parser_verif\" when building the harness crate /verif/harness, which path-depends on /repo",
            "baseline_off_cmd": "cd /repo && cargo test --workspace --no-fail-fast --offline",
            "source_commits": hooks_commits,
            "add_only": True,
        },
        "engines": [
            {"name": "tlsverif", "path": "/verif/harness", "serves_properties": sorted(CHECKS), "kind_free_text": "Rust harness: generated/exhaustive workloads against the real crate, deterministic oracles (reference encoders, IANA tables, executable models), counting allocator, panic capture, CPU-time watchdog over worker subprocesses"},
        ],
        "checks": checks,
        "not_applicable": na,
        "notes": "Exit codes of every check: 0 held on everything explored (observation floors met), 1 violation (VIOLATION line), 2 inconclusive (harness does not build, floor not met, tool failure). Known findings: /verif/KNOWN_FINDINGS.txt. Seeded-mutation catalogue: /verif/seeded/.",
    }
    out = os.path.join(ROOT, "MANIFEST.json")
    json.dump(m, open(out, "w"), indent=1)
    try:
        import jsonschema
        jsonschema.validate(m, json.load(open("/root/.vp/MANIFEST.schema.json")))
        print("MANIFEST.json valid;", len(checks), "checks,", len(na), "not claimed")
    except ImportError:
        print("jsonschema not available; not validated")

main()
