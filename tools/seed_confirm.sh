#!/bin/bash
# tools/seed_confirm.sh <PROP> <worktree> <name>
# 1. confirms a seeded change independently in its scratch worktree (compiles in 3 feature sets,
#    existing suite passes, demo fails with the change and passes without it),
# 2. stores it as /verif/seeded/<name>/ (patch.diff, seeded_demo.rs, meta.json),
# 3. applies it to /repo, runs ./check <PROP> quick (and the other properties named in $EXTRA), undoes it.
set -u
P="$1"; WT="$2"; NAME="$3"
D=/verif/seeded/$NAME
export CARGO_NET_OFFLINE=true CARGO_TERM_COLOR=never
cd "$WT" || exit 2
[ -f _deliver/patch.diff ] || { echo "no patch.diff"; exit 2; }
mkdir -p "$D"
cp _deliver/patch.diff "$D/patch.diff"
cp _deliver/seeded_demo.rs "$D/seeded_demo.rs" 2>/dev/null || cp tests/seeded_demo.rs "$D/seeded_demo.rs"
cp _deliver/meta.json "$D/agent_meta.json" 2>/dev/null
# fresh state: original tree + demo
git checkout -q -- . ; git clean -qfd -e target -e _deliver
mkdir -p tests; cp "$D/seeded_demo.rs" tests/seeded_demo.rs
echo "== without change: demo must pass"
cargo test --offline ${DEMO_FLAGS:-} --test seeded_demo >/tmp/seed.$$.a 2>&1; A=$?
tail -3 /tmp/seed.$$.a | grep -E "test result|error" 
git apply "$D/patch.diff" || { echo "patch does not apply"; exit 2; }
echo "== with change: builds"
B=0
cargo build --offline -q 2>/dev/null || B=1
cargo build --offline -q --features serialize 2>/dev/null || B=1
cargo build --offline -q --no-default-features 2>/dev/null || B=1
echo "== with change: demo must fail"
cargo test --offline ${DEMO_FLAGS:-} --test seeded_demo >/tmp/seed.$$.b 2>&1; C=$?
tail -3 /tmp/seed.$$.b | grep -E "test result|error"
echo "== with change: existing suite must pass"
rm tests/seeded_demo.rs
cargo test --offline --workspace --no-fail-fast >/tmp/seed.$$.c 2>&1; S=$?
grep -E "^test result" /tmp/seed.$$.c | awk '{p+=$4; f+=$6} END {print "passed="p" failed="f}'
echo "confirm: demo_without=$A (want 0) builds=$B (want 0) demo_with=$C (want !=0) suite=$S (want 0)"
CONF=no; [ $A -eq 0 ] && [ $B -eq 0 ] && [ $C -ne 0 ] && [ $S -eq 0 ] && CONF=yes
rm -f /tmp/seed.$$.*
# run the checks against /repo with the patch applied
cd /verif
RES=""
if [ "$CONF" = yes ] && [ -z "${NO_REPO:-}" ]; then
  git -C /repo apply "$D/patch.diff" || { echo "patch does not apply to /repo"; exit 2; }
  for id in $P ${EXTRA:-}; do
    ./check "$id" quick > "$D/check_$id.quick.out" 2>&1; rc=$?
    sig=$(grep "violation signature" "$D/check_$id.quick.out" | head -3 | sed 's/.*signature: //' | tr '\n' ';')
    echo "check $id quick -> exit $rc  $sig"
    RES="$RES $id:quick:$rc"
    if [ $rc -ne 1 ] && [ "$id" = "$P" ] && [ "${THOROUGH:-1}" = 1 ]; then
      ./check "$id" thorough > "$D/check_$id.thorough.out" 2>&1; rc=$?
      echo "check $id thorough -> exit $rc"
      RES="$RES $id:thorough:$rc"
    fi
  done
  git -C /repo checkout -- . ; git -C /repo clean -qfd -e target >/dev/null
  git -C /repo status --short | head -3
fi
echo "RESULT name=$NAME confirmed=$CONF checks=$RES"
echo "$RES" > "$D/results.txt"
